#!/usr/bin/env python3
"""Calibration of the checks (development-time, not a registered command):
  selftest/mutants/cNN_*.diff  -> ./check CNN must exit 1 on the patched scratch copy
  selftest/benign/*.diff       -> EVERY check must still exit 0 on the patched scratch copy
usage: tools/selftest.py [-j N] [mutants|benign]"""
import glob
import os
import shutil
import subprocess
import sys
import tempfile
from concurrent.futures import ThreadPoolExecutor

VERIF = os.path.dirname(os.path.dirname(os.path.abspath(__file__)))
PROPS = ["C%02d" % i for i in range(1, 21)]


# behaviour-preserving edits on which a check is allowed to answer "cannot decide" (exit 2) - never a violation
UNDECIDED = {}
_u = os.path.join(VERIF, "selftest", "benign", "UNDECIDED.json")
if os.path.exists(_u):
    import json
    UNDECIDED = json.load(open(_u))


def run(patch, props):
    d = tempfile.mkdtemp(prefix="vself_", dir="/tmp")
    out = {}
    try:
        root = os.path.join(d, "repo")
        os.makedirs(root)
        shutil.copytree("/repo/gmlc", os.path.join(root, "gmlc"))
        shutil.copytree("/repo/tests", os.path.join(root, "tests"))
        os.symlink("/repo/ThirdParty", os.path.join(root, "ThirdParty"))
        r = subprocess.run(["patch", "-p1", "-s", "-i", patch], cwd=root, stdout=subprocess.PIPE, stderr=subprocess.STDOUT, text=True)
        if r.returncode != 0:
            return patch, {"patch": "FAILED " + r.stdout[:200]}
        # the variant must still compile
        c = subprocess.run(["clang++", "-std=c++17", "-fsyntax-only", "-w", "-I" + os.path.join(root, "gmlc"), "-DVERIF_IR",
                            os.path.join(VERIF, "drivers", "inst.cpp")], stdout=subprocess.PIPE, stderr=subprocess.STDOUT, text=True)
        out["compiles"] = c.returncode == 0
        env = dict(os.environ, VERIF_REPO=root, VERIF_EVIDENCE=os.path.join(d, "evidence"), VERIF_CACHE=os.path.join(d, "cache"))
        for p in props:
            r = subprocess.run([os.path.join(VERIF, "check"), p], env=env, stdout=subprocess.PIPE, stderr=subprocess.STDOUT, text=True)
            out[p] = r.returncode
            if r.returncode != 0:
                out[p + "_msg"] = [l.replace(root + "/", "")[:220] for l in r.stdout.splitlines() if not l.startswith("VIOLATION")][:3]
    finally:
        shutil.rmtree(d, ignore_errors=True)
    return patch, out


def main():
    args = sys.argv[1:]
    j = 8
    if "-j" in args:
        i = args.index("-j")
        j = int(args[i + 1])
        del args[i:i + 2]
    which = args[0] if args else "both"
    jobs = []
    if which in ("both", "mutants"):
        for p in sorted(glob.glob(os.path.join(VERIF, "selftest", "mutants", "*.diff"))):
            prop = "C" + os.path.basename(p)[1:3]
            jobs.append((p, [prop], 1))
    if which in ("both", "benign"):
        for p in sorted(glob.glob(os.path.join(VERIF, "selftest", "benign", "*.diff"))):
            jobs.append((p, PROPS, 0))
    bad = 0
    with ThreadPoolExecutor(max_workers=j) as ex:
        futs = [(ex.submit(run, p, props), props, want) for p, props, want in jobs]
        for fut, props, want in futs:
            patch, out = fut.result()
            name = os.path.relpath(patch, VERIF)
            und = UNDECIDED.get(os.path.basename(patch), {})
            wrong = [p for p in props if out.get(p) != want and not (want == 0 and out.get(p) == 2 and p in und)]
            flag = "ok  " if not wrong and out.get("compiles") else "FAIL"
            if flag == "FAIL":
                bad += 1
            print("%s %-55s expected exit %d; compiles=%s; %s" % (flag, name, want, out.get("compiles"),
                  "" if not wrong else "unexpected: %s" % {p: (out.get(p), out.get(p + "_msg")) for p in wrong}), flush=True)
    print("selftest: %d job(s), %d failure(s)" % (len(jobs), bad))
    return 1 if bad else 0


if __name__ == "__main__":
    sys.exit(main())
