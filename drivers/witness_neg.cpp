// Compile-fail witnesses (A9). Every region between "// WITNESS" and "// END"
// must produce at least one compiler error located on its own lines.
// Format of the marker:   // WITNESS <id> [<Cnn>,<Cnn>] <what must be rejected>
#include "concurrency/TripWire.hpp"
#include "libguarded/atomic_guarded.hpp"
#include "libguarded/cow_guarded.hpp"
#include "libguarded/deferred_guarded.hpp"
#include "libguarded/guarded.hpp"
#include "libguarded/guarded_opt.hpp"
#include "libguarded/lr_guarded.hpp"
#include "libguarded/ordered_guarded.hpp"
#include "libguarded/rcu_guarded.hpp"
#include "libguarded/rcu_list.hpp"
#include "libguarded/shared_guarded.hpp"
#include "libguarded/shared_guarded_opt.hpp"

#include <shared_mutex>
#include <string>
#include <vector>

using namespace gmlc::libguarded;
using namespace gmlc::concurrency;
using V = std::vector<int>;

// WITNESS w01 [C02] writing through shared_guarded::lock_shared()
void w01(shared_guarded<V>& g) { g.lock_shared()->push_back(1); }
// END
// WITNESS w02 [C02] writing through shared_guarded_opt::lock_shared()
void w02(shared_guarded_opt<V>& g) { g.lock_shared()->push_back(1); }
// END
// WITNESS w03 [C02] writing through ordered_guarded::lock_shared()
void w03(ordered_guarded<V>& g) { g.lock_shared()->push_back(1); }
// END
// WITNESS w04 [C02,C06] writing through deferred_guarded::lock_shared()
void w04(deferred_guarded<V>& g) { g.lock_shared()->push_back(1); }
// END
// WITNESS w05 [C03] writing through lr_guarded::lock_shared()
void w05(lr_guarded<V>& g) { g.lock_shared()->push_back(1); }
// END
// WITNESS w06 [C04] writing through a cow_guarded snapshot
void w06(cow_guarded<V>& g) { g.lock_shared()->push_back(1); }
// END
// WITNESS w07 [C02] writing through the const lock() of shared_guarded
void w07(const shared_guarded<V>& g) { g.lock()->push_back(1); }
// END
// WITNESS w08 [C01,C08] copy-constructing a lock_handle
void w08(guarded<V>& g)
{
    auto h = g.lock();
    auto h2 = h;
}
// END
// WITNESS w09 [C01,C08] copy-assigning a lock_handle
void w09(guarded<V>& g)
{
    auto h = g.lock();
    auto h2 = g.try_lock();
    h2 = h;
}
// END
// WITNESS w10 [C02,C08] copy-constructing a shared_lock_handle
void w10(shared_guarded<V>& g)
{
    auto h = g.lock_shared();
    auto h2 = h;
}
// END
// WITNESS w11 [C04] copying a cow_guarded write handle
void w11(cow_guarded<V>& g)
{
    auto h = g.lock();
    auto h2 = h;
}
// END
// WITNESS w12 [C03] copying an lr_guarded read handle
void w12(lr_guarded<V>& g)
{
    auto h = g.lock_shared();
    auto h2 = h;
}
// END
// WITNESS w13 [C19] copying a TripWireTrigger
void w13(TripWireTrigger& t) { TripWireTrigger t2(t); }
// END
// WITNESS w14 [C01] naming guarded::m_obj from outside
void w14(guarded<V>& g) { g.m_obj.push_back(1); }
// END
// WITNESS w15 [C01] naming guarded::m_mutex from outside
void w15(guarded<V>& g) { g.m_mutex.lock(); }
// END
// WITNESS w16 [C01,C02] naming shared_guarded::m_obj from outside
void w16(shared_guarded<V>& g) { g.m_obj.push_back(1); }
// END
// WITNESS w17 [C01,C02] naming ordered_guarded::m_obj from outside
void w17(ordered_guarded<V>& g) { g.m_obj.push_back(1); }
// END
// WITNESS w18 [C15] naming atomic_guarded::m_obj from outside
void w18(atomic_guarded<V>& g) { g.m_obj.push_back(1); }
// END
// WITNESS w19 [C05,C12] mutating an rcu_list through a read handle
void w19(const rcu_guarded<rcu_list<int>>& g) { g.lock_read()->push_back(1); }
// END
// WITNESS w20 [C19] storing through a TripWireDetector's line
struct w20probe: TripWireDetector {
    void f();
};
void w20(TripWireDetector& d) { d.lineDetector->store(false); }
// END
// WITNESS w21 [C05,C12,C13] reaching rcu_list's node type from outside
void w21() { rcu_list<int>::node* n = nullptr; }
// END
// WITNESS w22 [C03] naming lr_guarded's copies from outside
void w22(lr_guarded<V>& g) { g.m_left.push_back(1); }
// END
// WITNESS w23 [C04] naming cow_guarded::m_data from outside
void w23(cow_guarded<V>& g) { g.m_data.lock_shared(); }
// END
// WITNESS w24 [C06,C02] naming deferred_guarded::m_obj from outside
void w24(deferred_guarded<V>& g) { g.m_obj.push_back(1); }
// END
// WITNESS w25 [C01,C08] naming guarded_opt::m_obj from outside
void w25(guarded_opt<V>& g) { g.m_obj.push_back(1); }
// END
// WITNESS w26 [C05] naming rcu_guarded::m_obj from outside
void w26(rcu_guarded<rcu_list<int>>& g) { g.m_obj.push_back(1); }
// END
// WITNESS w27 [C19] TripWire line accessors are private
void w27() { auto l = TripWire::getLine(); }
// END
// WITNESS w28 [C04] assigning through a dereferenced cow snapshot
void w28(cow_guarded<V>& g) { *g.lock_shared() = V{}; }
// END
// WITNESS w29 [C03] assigning through a dereferenced lr read handle
void w29(lr_guarded<V>& g) { *g.lock_shared() = V{}; }
// END
// WITNESS w30 [C01,C08] reaching lock_handle's private lock member
void w30(guarded<V>& g) { g.lock().m_handle_lock.release(); }
// END
