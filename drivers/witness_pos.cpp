// Legal counterparts of the compile-fail witnesses: everything here MUST compile.
#include "concurrency/TripWire.hpp"
#include "libguarded/atomic_guarded.hpp"
#include "libguarded/cow_guarded.hpp"
#include "libguarded/deferred_guarded.hpp"
#include "libguarded/guarded.hpp"
#include "libguarded/guarded_opt.hpp"
#include "libguarded/lr_guarded.hpp"
#include "libguarded/ordered_guarded.hpp"
#include "libguarded/rcu_guarded.hpp"
#include "libguarded/rcu_list.hpp"
#include "libguarded/shared_guarded.hpp"
#include "libguarded/shared_guarded_opt.hpp"

#include <shared_mutex>
#include <string>
#include <vector>

using namespace gmlc::libguarded;
using namespace gmlc::concurrency;
using V = std::vector<int>;

std::size_t p01(shared_guarded<V>& g) { return g.lock_shared()->size(); }
std::size_t p02(shared_guarded_opt<V>& g) { return g.lock_shared()->size(); }
std::size_t p03(ordered_guarded<V>& g) { return g.lock_shared()->size(); }
std::size_t p04(deferred_guarded<V>& g) { return g.lock_shared()->size(); }
std::size_t p05(lr_guarded<V>& g) { return g.lock_shared()->size(); }
std::size_t p06(cow_guarded<V>& g) { return g.lock_shared()->size(); }
void p08(guarded<V>& g)
{
    auto h = g.lock();
    auto h2 = std::move(h);
    h = std::move(h2);
    h->push_back(1);
}
void p10(shared_guarded<V>& g)
{
    auto h = g.lock_shared();
    auto h2 = std::move(h);
    h = std::move(h2);
    g.lock()->push_back(1);
}
void p11(cow_guarded<V>& g)
{
    auto h = g.lock();
    auto h2 = std::move(h);
    h2->push_back(1);
    auto s = g.lock_shared();
    auto s2 = s;
}
void p12(lr_guarded<V>& g)
{
    auto h = g.lock_shared();
    auto h2 = std::move(h);
    g.modify([](V& v) { v.push_back(1); });
}
template<class T>
void p13_assign(T& to, T& from)
{
    if constexpr (std::is_move_assignable_v<T>) {     // the property speaks of moving; a class may offer construction only
        to = std::move(from);
    }
}
void p13()
{
    auto line = make_tripline();
    TripWireTrigger t(line);
    TripWireTrigger t2(std::move(t));
    p13_assign(t, t2);
    TripWireDetector d(line);
    (void)d.isTripped();
}
void p19(rcu_guarded<rcu_list<int>>& g)
{
    g.lock_write()->push_back(1);
    const auto& cg = g;
    auto r = cg.lock_read();
    for (auto it = r->begin(); it != r->end(); ++it) {
        (void)*it;
    }
}
