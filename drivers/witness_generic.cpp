// Generic-client witnesses: every region is LEGAL client code that uses the library with the least capable types its
// interface promises to accept (opaque tags, move-only functors, payloads with nothing but the documented
// operations).  Each region MUST compile; a region that stops compiling means the library started to demand something
// of a template argument that the property's clients do not have to provide.
//   // GENERIC <id> [<properties>] <what the client relies on>  ...  // END
#include "concurrency/DelayedObjects.hpp"
#include "concurrency/SearchableObjectHolder.hpp"
#include "libguarded/atomic_guarded.hpp"
#include "libguarded/guarded.hpp"
#include "libguarded/ordered_guarded.hpp"

#include <memory>
#include <string>

namespace gw {
// a tag type that can be copied and compared for equality - and nothing else (no conversion to or from integers)
struct OpaqueTag {
    explicit OpaqueTag(char c): v(c) {}
    bool operator==(const OpaqueTag& o) const { return v == o.v; }

  private:
    char v;
};
// a payload that is copyable, assignable and equality comparable only
struct Plain {
    Plain() = default;
    bool operator==(const Plain&) const { return true; }
};
}  // namespace gw

// GENERIC g01 [C17] type tags are opaque: SearchableObjectHolder<X, Y> needs only copy and operator== of Y
void g01()
{
    gmlc::concurrency::SearchableObjectHolder<std::string, gw::OpaqueTag> h;
    const gw::OpaqueTag a('a');
    (void)h.addObject("n", std::make_shared<std::string>("x"), a);
    (void)h.addObject("m", std::make_shared<std::string>("y"));
    h.addType("m", a);
    (void)h.checkObjectType("n", a);
    (void)h.copyObject("n", "k");
    (void)h.findObject("n");
    (void)h.findObject([](const std::shared_ptr<std::string>&) { return true; });
    (void)h.findObject([](const std::shared_ptr<std::string>&) { return true; }, a);
    (void)h.removeObject("n");
    (void)h.removeObject([](const std::shared_ptr<std::string>&) { return true; });
    (void)h.getObjects();
    (void)h.empty();
}
// END

// GENERIC g02 [C15] atomic_guarded needs copy construction, copy assignment and operator== of T, nothing else
void g02()
{
    gmlc::libguarded::atomic_guarded<gw::Plain> r;
    gw::Plain p = r.load();
    r.store(p);
    r = p;
    gw::Plain expected;
    (void)r.compare_exchange(expected, p);
    (void)r.exchange(p);
}
// END

// GENERIC g03 [C18] DelayedObjects<X> works for a payload that is only default constructible and copyable
void g03()
{
    gmlc::concurrency::DelayedObjects<gw::Plain> d;
    auto f1 = d.getFuture(1);
    auto f2 = d.getFuture("k");
    gw::Plain v;
    d.setDelayedValue(1, v);
    d.setDelayedValue("k", gw::Plain{});
    d.fulfillAllPromises(v);
    (void)d.isCompleted(1);
    (void)d.isRecognized("k");
    d.finishedWithValue(1);
}
// END
