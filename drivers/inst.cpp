// Instantiation driver: makes clang instantiate every function template of the
// headers in scope so that the extractor can analyse their bodies.
//
//   -DVP=0  payload vdrv::Hostile      (quick tier; iterable, comparable, noexcept move construction but
//                                        potentially-throwing copy, copy/move assignment and comparison)
//   -DVP=1  payload int
//   -DVP=2  payload std::string
//   -DVP=3  payload struct Rec {int; std::string; std::vector<int>}
//   -DENABLE_TRIPWIRE  optional
//
// Nothing here is ever executed or even code-generated (-fsyntax-only).
// Members that cannot be instantiated for ANY configuration produce errors
// that the extractor records (tables/uninstantiable.json lists them).

#include "concurrency/Barrier.hpp"
#include "concurrency/DelayedDestructor.hpp"
#include "concurrency/DelayedObjects.hpp"
#include "concurrency/Latch.hpp"
#include "concurrency/SearchableObjectHolder.hpp"
#include "concurrency/TriggerVariable.hpp"
#include "concurrency/TripWire.hpp"
#include "libguarded/atomic_guarded.hpp"
#include "libguarded/cow_guarded.hpp"
#include "libguarded/deferred_guarded.hpp"
#include "libguarded/guarded.hpp"
#include "libguarded/guarded_opt.hpp"
#include "libguarded/handles.hpp"
#include "libguarded/lr_guarded.hpp"
#include "libguarded/ordered_guarded.hpp"
#include "libguarded/rcu_guarded.hpp"
#include "libguarded/rcu_list.hpp"
#include "libguarded/shared_guarded.hpp"
#include "libguarded/shared_guarded_opt.hpp"

#include <chrono>
#include <mutex>
#include <shared_mutex>
#include <string>
#include <vector>

#ifndef VP
#    define VP 0
#endif

namespace vdrv {
struct Rec {
    int a{0};
    std::string b;
    std::vector<int> c;
    bool operator==(const Rec& o) const
    {
        return a == o.a && b == o.b && c == o.c;
    }
};
// the most hostile payload a client may legally use: everything user code can do wrong at run time
// (throwing copies, throwing assignments, throwing comparison) is possible in its type
// special members a class may legitimately lose (`= delete`) are exercised only where they exist
template<class T>
void move_assign_if_possible(T& to, T& from)
{
    if constexpr (std::is_move_assignable_v<T>) {
        to = std::move(from);
    }
}
struct Hostile {
    std::vector<int> v;
    Hostile() {}  // user-provided: not noexcept, not trivial (selects the 'may throw' arm of every trait test)
    Hostile(const Hostile& o): v(o.v) {}
    Hostile(Hostile&& o) noexcept: v(std::move(o.v)) {}
    Hostile& operator=(const Hostile& o)
    {
        v = o.v;
        return *this;
    }
    Hostile& operator=(Hostile&& o)  // deliberately not noexcept
    {
        v = std::move(o.v);
        return *this;
    }
    bool operator==(const Hostile& o) const { return v == o.v; }
    auto begin() { return v.begin(); }
    auto end() { return v.end(); }
    auto begin() const { return v.begin(); }
    auto end() const { return v.end(); }
};
#if VP == 0
using P = Hostile;
#elif VP == 1
using P = int;
#elif VP == 4
using P = std::vector<int>;
#elif VP == 2
using P = std::string;
#else
using P = Rec;
#endif

// a stateful allocator for the rcu_list configurations
template<class T>
struct CountingAlloc {
    using value_type = T;
    int* counter{nullptr};
    CountingAlloc() = default;
    explicit CountingAlloc(int* c): counter(c) {}
    template<class U>
    CountingAlloc(const CountingAlloc<U>& o): counter(o.counter)
    {
    }
    T* allocate(std::size_t n)
    {
        if (counter) ++*counter;
        return static_cast<T*>(::operator new(n * sizeof(T)));
    }
    void deallocate(T* p, std::size_t)
    {
        if (counter) --*counter;
        ::operator delete(p);
    }
    template<class U>
    bool operator==(const CountingAlloc<U>& o) const
    {
        return counter == o.counter;
    }
    template<class U>
    bool operator!=(const CountingAlloc<U>& o) const
    {
        return counter != o.counter;
    }
};

template<class M>
struct is_timed: std::false_type {};
template<>
struct is_timed<std::timed_mutex>: std::true_type {};
template<>
struct is_timed<std::shared_timed_mutex>: std::true_type {};

using ms = std::chrono::milliseconds;
using tp = std::chrono::steady_clock::time_point;

struct VoidMod {
    void operator()(P& p) const;
};
struct ValMod {
    int operator()(P& p) const;
};
struct VoidRead {
    void operator()(const P& p) const;
};
// returns a reference into the protected object: modify_async then yields std::future<P&>
struct RefMod {
    P& operator()(P& p) const;
};
struct ValRead {
    int operator()(const P& p) const;
};
// functors whose call operator is a template / overloaded on constness: traits such as is_invocable<F, const T&> answer
// differently for them than for the plain ones above
struct GenericMod {
    template<class U>
    void operator()(U& p) const;
};
struct GenericValMod {
    template<class U>
    int operator()(U& p) const;
};
struct OverloadedMod {
    void operator()(P& p) const;
    void operator()(const P& p) const;
};
}  // namespace vdrv

using namespace gmlc::libguarded;
using namespace gmlc::concurrency;
using vdrv::P;

// ---------------------------------------------------------------- handles
#if VP == 0 || VP == 2 || VP == 4
#    define INST_HANDLES(M)                                                     \
        template class gmlc::libguarded::lock_handle<P, M>;                     \
        template class gmlc::libguarded::shared_lock_handle<P, M>;
#else
#    define INST_HANDLES(M)
#endif
// VERIF_AUTO: the file is included by a driver that the checker generates for member templates added to the library
// after this driver was written (rules/autodrive.py); only the type definitions and helpers are wanted then
#ifndef VERIF_AUTO
INST_HANDLES(std::mutex)
INST_HANDLES(std::timed_mutex)
INST_HANDLES(std::shared_mutex)
INST_HANDLES(std::shared_timed_mutex)
#endif

// ------------------------------------------------------- wrapper templates
// -DVERIF_IR: the same unit must produce LLVM IR (thorough-tier cross-check), so the explicit
// instantiations of classes that contain an uninstantiable member are left out there.
#ifdef VERIF_IR
#    define INST_BROKEN(M)
#else
#    define INST_BROKEN(M)                                                      \
        template class gmlc::libguarded::guarded<P, M>;                         \
        template class gmlc::libguarded::guarded_opt<P, M>;                     \
        template class gmlc::libguarded::cow_guarded<P, M>;
#endif
#define INST_WRAPPERS(M)                                                        \
    INST_BROKEN(M)                                                              \
    template class gmlc::libguarded::shared_guarded<P, M>;                      \
    template class gmlc::libguarded::shared_guarded_opt<P, M>;                  \
    template class gmlc::libguarded::ordered_guarded<P, M>;                     \
    template class gmlc::libguarded::deferred_guarded<P, M>;                    \
    template class gmlc::libguarded::atomic_guarded<P, M>;                      \
    template class gmlc::libguarded::lr_guarded<P, M>;                          \
    template class gmlc::libguarded::shared_locker<M>;
#ifndef VERIF_AUTO
INST_WRAPPERS(std::mutex)
INST_WRAPPERS(std::timed_mutex)
INST_WRAPPERS(std::shared_mutex)
INST_WRAPPERS(std::shared_timed_mutex)
#endif

namespace vdrv {
// member templates and things explicit class instantiation does not reach
template<class M>
void use_all(const P& p)
{
    // constructors
    guarded<P, M> g(p);
    guarded_opt<P, M> go(true, p);
    guarded_opt<P, M> go2(false);
    shared_guarded<P, M> sg(p);
    shared_guarded_opt<P, M> sgo(true, p);
    shared_guarded_opt<P, M> sgo2(false);
    ordered_guarded<P, M> og(p);
    deferred_guarded<P, M> dg(p);
    atomic_guarded<P, M> ag(p);
    cow_guarded<P, M> cg(p);
    lr_guarded<P, M> lr(p);
    const auto& csg = sg;
    const auto& csgo = sgo;

    // store / operator= : const-ref and rvalue forms
    g.store(p);
    g.store(P(p));
    g = p;
    g = P(p);
    go.store(p);
    go.store(P(p));
    go = p;
    go = P(p);
    og.store(p);
    og.store(P(p));
    og = p;
    og = P(p);
    ag.store(p);
    ag.store(P(p));
    ag = p;
    ag = P(p);
    // non-const lvalue arguments: the forwarding parameter is deduced as P&, the caller keeps its object
    P q(p);
    g.store(q);
    g = q;
    go.store(q);
    go = q;
    og.store(q);
    og = q;
    ag.store(q);
    ag = q;
    P e(p);
    (void)ag.compare_exchange(e, p);
    (void)ag.compare_exchange(e, P(p));
    (void)ag.exchange(p);
    (void)ag.load();
    (void)g.load();
    (void)go.load();
    (void)og.load();
    (void)dg.load();

    // handle life cycle
    {
        auto h = g.lock();
        auto h2 = std::move(h);
        h = std::move(h2);
        h.unlock();
        (void)bool(h);
        auto sh = csg.lock();
        auto sh2 = std::move(sh);
        sh = std::move(sh2);
        sh.unlock();
        (void)bool(sh);
        (void)*sg.lock();
        (void)sg.lock().operator->();
        (void)*csg.lock();
        (void)csg.lock().operator->();
        (void)csgo.lock();
    }

    // functor forms
    og.modify(VoidMod{});
    (void)og.modify(ValMod{});
    og.read(VoidRead{});
    (void)og.read(ValRead{});
    dg.modify_detach(VoidMod{});
    VoidMod vm;
    dg.modify_detach(vm);
    (void)dg.modify_async(VoidMod{});
    (void)dg.modify_async(ValMod{});
    (void)dg.modify_async(RefMod{});
    lr.modify(VoidMod{});
    lr.modify(vm);
    og.modify(GenericMod{});
    (void)og.modify(GenericValMod{});
    og.modify(OverloadedMod{});
    og.modify([](auto& v) -> void { (void)v; });
    og.read(GenericMod{});
    dg.modify_detach(GenericMod{});
    (void)dg.modify_async(GenericMod{});
    (void)dg.modify_async(GenericValMod{});
    lr.modify(GenericMod{});
    lr.modify(OverloadedMod{});
    {
        auto h = cg.lock();
        auto h2 = std::move(h);
        h2.cancel();
        auto s = cg.lock_shared();
        (void)cg.try_lock_shared();
        (void)cg.try_lock_shared_for(ms(1));
        (void)cg.try_lock_shared_until(tp{});
        auto ls = lr.lock_shared();
        auto ls2 = std::move(ls);
        (void)lr.try_lock_shared_for(ms(1));
        (void)lr.try_lock_shared_until(tp{});
    }

    if constexpr (is_timed<M>::value) {
        (void)g.try_lock_for(ms(1));
        (void)g.try_lock_until(tp{});
        (void)go.try_lock_for(ms(1));
        (void)go.try_lock_until(tp{});
        (void)sg.try_lock_for(ms(1));
        (void)sg.try_lock_until(tp{});
        (void)sg.try_lock_shared_for(ms(1));
        (void)sg.try_lock_shared_until(tp{});
        (void)sgo.try_lock_for(ms(1));
        (void)sgo.try_lock_until(tp{});
        (void)sgo.try_lock_shared_for(ms(1));
        (void)sgo.try_lock_shared_until(tp{});
        (void)og.try_lock_shared_for(ms(1));
        (void)og.try_lock_shared_until(tp{});
        (void)dg.try_lock_shared_for(ms(1));
        (void)dg.try_lock_shared_until(tp{});
    }
}
#ifndef VERIF_AUTO
template void use_all<std::mutex>(const P&);
template void use_all<std::timed_mutex>(const P&);
template void use_all<std::shared_mutex>(const P&);
template void use_all<std::shared_timed_mutex>(const P&);
#endif
}  // namespace vdrv

// -------------------------------------------------------------------- rcu
#if VP == 1 || VP == 2 || VP == 0 || VP == 4
#    define RCU_T P
#else
#    define RCU_T std::string
#endif
using RcuT = RCU_T;
#ifndef VERIF_AUTO
#ifndef VERIF_IR
template class gmlc::libguarded::rcu_list<RcuT, std::mutex, std::allocator<RcuT>>;
template class gmlc::libguarded::rcu_list<RcuT,
                                          std::timed_mutex,
                                          vdrv::CountingAlloc<RcuT>>;
#endif
template class gmlc::libguarded::rcu_guarded<
    gmlc::libguarded::rcu_list<RcuT, std::mutex, std::allocator<RcuT>>>;
template class gmlc::libguarded::rcu_guarded<
    gmlc::libguarded::rcu_list<RcuT, std::timed_mutex, vdrv::CountingAlloc<RcuT>>>;
#endif

namespace vdrv {
template<class L>
void use_rcu(const RcuT& v)
{
    rcu_guarded<L> r;
    {
        auto w = r.lock_write();
        w->emplace_back(v);
        w->emplace_front(v);
        w->push_back(v);
        w->push_front(v);
        for (auto it = w->begin(); it != w->end(); ++it) {
            (void)*it;
            (void)it.operator->();
            w->erase(it);
        }
        auto it2 = w->begin();
        it2++;
        (void)(w->end() == it2);
        (void)(w->end() != it2);
        (void)(it2 == w->end());
    }
    {
        const auto& cr = r;
        auto rd = cr.lock_read();
        for (auto it = rd->begin(); it != rd->end(); ++it) {
            (void)*it;
            (void)it.operator->();
        }
        auto it2 = rd->begin();
        it2++;
        (void)(rd->end() == it2);
        (void)(rd->end() != it2);
        (void)(*rd).begin();
    }
}
#ifndef VERIF_AUTO
template void
    use_rcu<rcu_list<RcuT, std::mutex, std::allocator<RcuT>>>(const RcuT&);
template void
    use_rcu<rcu_list<RcuT, std::timed_mutex, CountingAlloc<RcuT>>>(const RcuT&);
#endif
}  // namespace vdrv

// ------------------------------------------------------------ concurrency
#if VP == 1
using CX = int;
#elif VP == 0
using CX = vdrv::Hostile;       // a payload whose copy may throw: what is user code inside the concurrency classes shows
#else
using CX = std::string;
#endif
#ifndef VERIF_AUTO
template class gmlc::concurrency::DelayedDestructor<CX>;
template class gmlc::concurrency::DelayedDestructorSingleThread<CX>;
template class gmlc::concurrency::DelayedObjects<CX>;
template class gmlc::concurrency::SearchableObjectHolder<CX, int>;
#endif

DECLARE_TRIPLINE()
DECLARE_INDEXED_TRIPLINES(3)

namespace vdrv {
#ifdef VERIF_AUTO
template<class Never>
#endif
void use_concurrency()
{
    Barrier b(2);
    b.wait();
    b.wait_and_drop();
    Latch l(2);
    l.arrive();
    l.wait();
    l.arrive_and_wait();
    TriggerVariable tv;
    tv.activate();
    tv.trigger();
    tv.wait();
    tv.wait_for(ms(1));
    tv.waitActivation();
    tv.wait_forActivation(ms(1));
    tv.reset();
    (void)tv.isActive();
    (void)tv.isTriggered();
    TripWireDetector d0;
    TripWireDetector d1(1U);
    TripWireDetector d2(make_tripline());
    (void)d0.isTripped();
    TripWireTrigger t0;
    TripWireTrigger t1(1U);
    TripWireTrigger t2(make_tripline());
    TripWireTrigger t3(std::move(t2));
    move_assign_if_possible(t1, t3);
    (void)make_triplines(2);
    // every public operation is also CALLED (lvalue and rvalue arguments), so that an operation that becomes a member
    // template is still instantiated and analysed
    gmlc::concurrency::DelayedObjects<CX> dobj;
    const std::string key("k");
    CX val{};
    (void)dobj.getFuture(1);
    (void)dobj.getFuture(key);
    dobj.setDelayedValue(1, val);
    dobj.setDelayedValue(1, CX{});
    dobj.setDelayedValue(key, val);
    dobj.setDelayedValue(key, CX{});
    (void)dobj.isRecognized(1);
    (void)dobj.isRecognized(key);
    (void)dobj.isCompleted(1);
    (void)dobj.isCompleted(key);
    dobj.finishedWithValue(1);
    dobj.finishedWithValue(key);
    dobj.fulfillAllPromises(val);
    dobj.fulfillAllPromises(CX{});
}
}  // namespace vdrv
