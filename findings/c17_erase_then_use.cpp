// Demonstration: SearchableObjectHolder::removeObject(predicate) reads obj->first after objectMap.erase(obj).
#include "concurrency/SearchableObjectHolder.hpp"
#include <cstdio>
using namespace gmlc::concurrency;
int main()
{
    SearchableObjectHolder<std::string> h;
    h.addObject("a fairly long object name so the key string is heap allocated", std::make_shared<std::string>("x"), 3);
    bool r = h.removeObject([](const std::shared_ptr<std::string>& p) { return *p == "x"; });
    std::printf("removed=%d\n", (int)r);
    return 0;
}
