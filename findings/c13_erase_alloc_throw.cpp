// Demonstration (triage only, not a check): rcu_list::erase leaks the erased node when the allocation of its
// reclamation record fails.  erase() marks the node deleted and unlinks it BEFORE it allocates the record that is
// the only thing through which the node is ever freed; if that allocation throws, the node is reachable from
// neither the list nor the log, so ~rcu_list never destroys or deallocates it (C13: "every element ... is
// destroyed and deallocated exactly once - no later than destruction of the list").
#include "libguarded/rcu_guarded.hpp"
#include "libguarded/rcu_list.hpp"
#include <cstdio>
#include <new>
#include <string>
using namespace gmlc::libguarded;

static int live_elements = 0;
struct Elem {
    std::string s;
    explicit Elem(const char* p): s(p) { ++live_elements; }
    Elem(const Elem& o): s(o.s) { ++live_elements; }
    Elem(Elem&& o) noexcept: s(std::move(o.s)) { ++live_elements; }
    ~Elem() { --live_elements; }
};

static long allocs = 0, deallocs = 0;
static bool fail_small = false;
template<class T>
struct FailingAlloc {
    using value_type = T;
    FailingAlloc() = default;
    template<class U>
    FailingAlloc(const FailingAlloc<U>&) noexcept {}
    T* allocate(std::size_t n)
    {
        // the reclamation record (zombie_list_node) is the only small allocation erase() makes
        if (fail_small && sizeof(T) <= 3 * sizeof(void*)) { throw std::bad_alloc(); }
        ++allocs;
        return static_cast<T*>(::operator new(n * sizeof(T)));
    }
    void deallocate(T* p, std::size_t) noexcept { ++deallocs; ::operator delete(p); }
    template<class U> bool operator==(const FailingAlloc<U>&) const { return true; }
    template<class U> bool operator!=(const FailingAlloc<U>&) const { return false; }
};

int main()
{
    {
        rcu_guarded<rcu_list<Elem, std::mutex, FailingAlloc<Elem>>> l;
        {
            auto w = l.lock_write();
            w->emplace_back("first element, long enough to live on the heap ........");
            w->emplace_back("second element, long enough to live on the heap .......");
            fail_small = true;
            try {
                w->erase(w->begin());
                std::puts("erase did not throw (allocator hook not reached)");
            }
            catch (const std::bad_alloc&) {
                std::puts("erase threw bad_alloc while allocating its reclamation record");
            }
            fail_small = false;
        }
    }
    std::printf("after ~rcu_list: live elements=%d allocations=%ld deallocations=%ld\n", live_elements, allocs, deallocs);
    if (live_elements != 0 || allocs != deallocs) {
        std::puts("LEAK: the erased node was never destroyed / deallocated");
        return 1;
    }
    std::puts("ok");
    return 0;
}
