// Demonstration (triage only, not a check): rcu_list destroys a node that never existed.
// Two consecutive read handles on an rcu_list<std::string>: the second release reclaims the
// first handle's registration record, whose zombie_node is nullptr, and calls
// node_alloc_trait::destroy(alloc, nullptr) -> ~node() -> ~basic_string on address 0+offset.
#include "libguarded/rcu_guarded.hpp"
#include "libguarded/rcu_list.hpp"
#include <string>
#include <cstdio>
using namespace gmlc::libguarded;
int main()
{
    rcu_guarded<rcu_list<std::string>> l;
    {
        auto w = l.lock_write();
        w->push_back("a long enough string to defeat the small string optimisation");
    }
    {
        auto r = l.lock_read();
        (void)r->begin();
    }
    {
        auto r = l.lock_read();
        (void)r->begin();
    }
    std::puts("ok");
    return 0;
}
