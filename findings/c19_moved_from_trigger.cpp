// Demonstration: destroying a moved-from TripWireTrigger dereferences a null shared_ptr.
#include "concurrency/TripWire.hpp"
#include <cstdio>
using namespace gmlc::concurrency;
int main()
{
    auto line = make_tripline();
    {
        TripWireTrigger a(line);
        TripWireTrigger b(std::move(a));
    }   // ~a runs lineTrigger->store(...) on nullptr
    std::puts("ok");
    return 0;
}
