// Positive controls for zero-expected rules: each construct here MUST be
// reported by the rule named in its comment, on every run (else exit 2).
#pragma once
#include <atomic>
#include <condition_variable>
#include <map>
#include <memory>
#include <mutex>
#include <string>
#include <thread>
#include <vector>

namespace fx {

// C01.raii: raw mutex operations
class raw_mutex_user {
  public:
    void f()
    {
        m.lock();
        x = work(x);     // may throw: the mutex stays locked
        m.unlock();
    }
    void probe()
    {
        if (m.try_lock()) {
            m.unlock();
        }
    }
    static int work(int v) { return v + 1; }

  private:
    std::mutex m;
    int x{0};
};

// C14.noblock / C14.loops: a "read path" that takes a mutex, yields and spins
class blocking_reader {
  public:
    int read() const
    {
        std::lock_guard<std::mutex> g(m);
        return v;
    }
    int spin() const
    {
        while (flag.load()) {
            std::this_thread::yield();
        }
        return v;
    }

  private:
    mutable std::mutex m;
    std::atomic<bool> flag{false};
    int v{0};
};

// A8: iterator used after erase; pointer used after delete
class erase_then_use {
  public:
    bool remove(const std::string& k)
    {
        auto it = m.find(k);
        if (it != m.end()) {
            m.erase(it);
            return it->second > 0;
        }
        return false;
    }
    int dangling()
    {
        int* p = new int(3);
        delete p;
        return *p;
    }

  private:
    std::map<std::string, int> m;
};

// A8 lookup rule: the result of find() dereferenced without comparing it with end()
class unchecked_find {
  public:
    int get(const std::string& k)
    {
        auto it = m.find(k);
        return it->second;
    }
    int get_checked(const std::string& k)
    {
        auto it = m.find(k);
        if (it == m.end()) {
            return 0;
        }
        return it->second;
    }

  private:
    std::map<std::string, int> m;
};

// A8 consumed-in-loop rule
class move_in_loop {
  public:
    void broadcast(std::string&& v)
    {
        for (auto& s : sinks) {
            s = std::move(v);
        }
    }
    void drain(std::vector<std::string>& out)
    {
        for (auto& s : sinks) {
            out.push_back(std::move(s));
        }
    }

  private:
    std::vector<std::string> sinks;
};

// A8 move-from-caller rule: std::move on a forwarding reference
struct fwd_sink {
    std::vector<std::string> v;
    template<class S>
    void take_moved(S&& s)
    {
        v.push_back(std::move(s));
    }
    template<class S>
    void take_forwarded(S&& s)
    {
        v.push_back(std::forward<S>(s));
    }
};

// A8 use-after-move rule: a forwarded callable invoked twice; a move out of a reference to storage owned elsewhere
struct fwd_twice {
    std::vector<std::string> a, b;
    template<class F>
    void twice(F&& f)
    {
        std::forward<F>(f)(a);
        std::forward<F>(f)(b);
    }
    template<class F>
    void once(F&& f)
    {
        f(a);
        std::forward<F>(f)(b);
    }
    std::string steal(std::vector<std::string>& src, std::size_t i)
    {
        auto& slot = src.at(i);     // storage that belongs to the caller
        return std::string(std::move(slot));
    }
    // front() on a possibly empty container / guarded by an emptiness test
    std::string first_unchecked() const { return a.front(); }
    std::string first_checked() const
    {
        if (a.empty()) {
            return std::string();
        }
        return a.front();
    }
    std::string copy_then_move(std::size_t i)
    {
        auto slot = a.at(i);
        return std::string(std::move(slot));
    }
};

// A8 uninitialised-local rule
struct uninit_local {
    static int sink(const int& v) { return v; }
    static int bad()
    {
        int v;
        return sink(v);
    }
    static int good(bool c)
    {
        int v;
        if (c) {
            v = 1;
        } else {
            v = 2;
        }
        int w{};
        return sink(v) + sink(w);
    }
};

// RAII-token rule: releasing destructor + defaulted move
class armed_token {
  public:
    explicit armed_token(std::atomic<int>* c): cnt(c) { ++(*cnt); }
    armed_token(armed_token&&) = default;      // copies cnt: both objects decrement
    ~armed_token()
    {
        if (cnt) {
            --(*cnt);
        }
    }

  private:
    std::atomic<int>* cnt{nullptr};
};
class safe_token {
  public:
    explicit safe_token(std::atomic<int>& c): cnt(&c, [](std::atomic<int>*) {}) { ++c; }
    safe_token(safe_token&&) = default;        // shared_ptr nulls the source
    ~safe_token()
    {
        if (cnt) {
            --(*cnt);
        }
    }

  private:
    std::shared_ptr<std::atomic<int>> cnt;
};

// A8 nullable-field rule: member pointer that a constructor can leave null,
// dereferenced without a test
class nullable_deref {
  public:
    nullable_deref() = default;
    explicit nullable_deref(std::shared_ptr<std::atomic<bool>> l): line(std::move(l)) {}
    nullable_deref(nullable_deref&&) = default;
    ~nullable_deref() { line->store(true); }

  private:
    std::shared_ptr<std::atomic<bool>> line;
};

// A5: waking write without notify / wait without predicate loop
class bad_cv {
  public:
    void set()
    {
        std::lock_guard<std::mutex> l(m);
        ready = true;
    }
    void wait()
    {
        std::unique_lock<std::mutex> l(m);
        if (!ready) {
            cv.wait(l);
        }
    }

  private:
    std::mutex m;
    std::condition_variable cv;
    bool ready{false};
};

}  // namespace fx
