// positive controls: constructs that every zero-expected rule MUST report.
#include "fx.hpp"
namespace fx {
void use()
{
    raw_mutex_user a;
    a.f();
    a.probe();
    blocking_reader b;
    (void)b.read();
    (void)b.spin();
    erase_then_use c;
    (void)c.remove("x");
    (void)c.dangling();
    nullable_deref d;
    nullable_deref e(std::move(d));
    unchecked_find u;
    (void)u.get("x");
    (void)u.get_checked("x");
    move_in_loop ml;
    std::vector<std::string> sink;
    ml.broadcast(std::string("v"));
    ml.drain(sink);
    std::atomic<int> cnt{0};
    {
        armed_token t1(&cnt);
        armed_token t2(std::move(t1));
        safe_token s1(cnt);
        safe_token s2(std::move(s1));
    }
    (void)uninit_local::bad();
    (void)uninit_local::good(true);
    fwd_sink fs;
    std::string keep("k");
    fs.take_moved(keep);
    fs.take_forwarded(keep);
    fwd_twice ft;
    ft.twice([](std::vector<std::string>& x) { x.push_back("a"); });
    ft.once([](std::vector<std::string>& x) { x.push_back("a"); });
    (void)ft.steal(ft.b, 0);
    (void)ft.copy_then_move(0);
    (void)ft.first_unchecked();
    (void)ft.first_checked();
    bad_cv f;
    f.set();
    f.wait();
}
}  // namespace fx
